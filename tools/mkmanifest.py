#!/usr/bin/env python3
"""Regenerates /verif/MANIFEST.json from the table below (kept in one place so it is always valid)."""
import json, sys
CLAIMED = {
 "C01": dict(engine="E1", design="§5 C01", technique="bounded exhaustive product over field-naming features, real pipeline + per-language extractor vs serde reference model",
     text="Full product of identifier × serde(rename) × rename_all × placement (struct / variant / enclosing enum) × attribute spelling × 6 languages × 2 configurations, for one field (quick) and ordered pairs of fields (thorough, ~8M executions); each case is run through the real parse→reconcile→generate pipeline, the output is parsed back and the JSON key bound to every field is compared with serde's.",
     note="Trusted: vendored serde_derive case.rs + precedence rule; the extractors' reading of each backend's key binding (validated on the repository's 303 snapshot outputs and by canned negative controls). Programs outside the alphabet are not covered."),
 "C02": dict(engine="E1", design="§5 C02", technique="bounded exhaustive product over enum shapes, real pipeline + per-language extractor vs serde reference model (all key facets)",
     text="Full product of 1–2 (quick) / 1–3 (thorough) variants × 8 payload kinds (incl. generic and recursive) × renames × 9 rename_all × tag/content pairs × attribute style × 6 languages × 2 configurations; every place a backend writes a variant name, the tag key or the content key (e.g. Swift ContainerCodingKeys + each decode/encode forKey, Go's three json tag sites) is compared with serde's value; one case per variant is required.",
     note="Trusted: vendored serde case.rs; extractor facet collection (negative control with a canned Swift file containing a wrong key). Keyword tag keys are left to C10."),
 "C03": dict(engine="E1", design="§5 C03", technique="bounded exhaustive product over item sequences and skip patterns, real pipeline + extractor vs ground-truth item/member lists",
     text="Items family: every sequence of 1–2 (quick) / 1–3 (thorough) items over 7 item kinds × annotated/un-annotated × module depth 0–2 × 6 languages; members family: all 27 skip patterns over three members × both skip spellings × 4 attribute styles × rename × 4 container kinds × 6 languages. The recovered definitions (minus Inner helpers) must equal the annotated items and the members the non-skipped members in source order; an inexpressible item (const in Kotlin/Swift/Scala) must produce an error.",
     note="Trusted: the extractors' definition/member recovery (303 snapshot outputs + canned control). Bodies of items are fixed shapes; larger files are not enumerated."),
 "C04": dict(engine="E1", design="§5 C04", technique="bounded exhaustive product over optional-ness features with a differential control member",
     text="Full product of 5 base types × 6 Option/smart-pointer wrappers × 5 serde(default) spellings × 4 positions × 6 languages × 2 configurations; the optional marker is compared with `Option ∨ bare default` and the member's type with the type of a control member of the base type in the same definition.",
     note="Trusted: per-backend optional idioms as listed in the property."),
 "C05": dict(engine="E1", design="§5 C05", technique="bounded exhaustive enumeration of type expressions, real pipeline + type-tree extractor vs structural/category reference model",
     text="All unary constructor chains (Vec, array, slice, Option, Box, &) of depth ≤ 2 (quick) / ≤ 4 (thorough) over 17 leaves, every smart-pointer name and path form, maps and user generics with chain arguments, const types; × 4 positions × 6 languages × 2 configurations × type-mapping tables (~1.3M executions thorough). The type text at the use site is parsed back to a tree and compared structurally; primitives are judged by JSON category and value range.",
     note="Trusted: target primitive ranges from language references; TypeScript optionality is judged by C04, not here."),
 "C06": dict(engine="E3+E1", design="§5 C06", technique="TLA+/TLC protocol model with every maximal path replayed as a forced schedule on the real binary (hook trace must equal the model path); exhaustive arrival permutations, set partitions and hash iteration orders; byte-equality per equivalence class",
     text="(1) every maximal path of the WalkCollect model (2 and 3 files; 94 paths) replayed on the hooks-on binary for single/multi mode and 2 (quick) / 6 (thorough) languages, with conformance of the event trace; (2) every arrival permutation of n ≤ 4 (quick) / ≤ 6 (thorough) files × single/multi × 6 languages; (3) all 52 set partitions of five items over files × arrival orders of the blocks; (4) thread counts 1..16; (5) same item name in two files; (6) in-process: every iteration order of the crate map and import sets for four multi-crate scenarios. All outputs of an equivalence class must be byte-identical.",
     note="Interleavings inside ignore's work stealing and crossbeam's channel are not explored; one walker per file; all walkers hold their file before the first send. Hash orders are reached by re-creating collections until every permutation was witnessed (coverage counted)."),
 "C07": dict(engine="E1+S-cli", design="§5 C07", technique="exhaustive singles/pairs/triples over a grammar-edge alphabet run in-process under catch_unwind, plus process-level fault enumeration with a watchdog", category="model_checking",
     text="A baseline program plus every single edge symbol (≈100 symbols: container names without arguments, empty tuple structs/variants, odd attribute lists, underscore-only and non-ASCII identifiers under every rename_all rule, bare `use`, consts, odd serialized_as, #[typeshare] on unsupported item kinds …) at every position × 6 languages × single/multi × 3 configurations, every unordered pair and (thorough) triple; no execution may unwind. The real binary is then run under a watchdog on every symbol and on 17 file-level/argument faults × languages × modes: it must terminate with exit 0 and output, or a non-zero status and a diagnostic (naming the file for parse-stage failures), never panic or hang.",
     note="The alphabet is a fixed list; arbitrary Rust is not enumerable. Watchdog hits are re-run with a longer limit before they are believed. Error-path schedules are covered with C06's protocol model."),
 "C08": dict(engine="E1+S-cli", design="§5 C08", technique="bounded exhaustive planting of unsupported constructs under all carrier chains and positions; parser verdict + differential under skip; CLI runs for the no-output clause",
     text="6 unsupported types under every carrier chain of depth ≤ 2 (quick) / ≤ 3 (thorough; depth 4–5 with ≤ 2 distinct constructors) over 9 constructors at 9 positions × 3 skip states, plus 17 structural constructs × 6 languages; the real parser must record an error, and with the construct under a skip marker the output must equal that of the program with the member deleted. The real binary is run on 9 constructs × languages × single/multi × absent/pre-existing output: it must exit with an error naming the file and leave the output location byte- and mtime-identical.",
     note="Representable integer constant expressions (-5, (9)) may be accepted if the generated value is right. The CLI family uses a fixed list of constructs."),
 "C09": dict(engine="E1", design="§5 C09", technique="bounded exhaustive product over reference shapes; Referenced ⊆ Defined computed from the parsed output; items renamed onto each other's names also through the real binary (S-cli), file and folder output",
     text="Full product of 6 target kinds × serde(rename) on target × 13 reference positions (fields, containers, generic arguments, payloads, struct-variant fields, alias targets, self reference, generic-parameter positions) × serde(rename) on the referrer × 6 languages × 2 prefix configurations; every non-primitive name in a type tree, variant parent clause or Inner reference must be a definition of the same output, and every item must be defined as prefix + renamed name.",
     note="Names recognised as target primitives/builtins/helper vocabulary are not treated as user references (helpers are C12's)."),
 "C10": dict(engine="E1", design="§5 C10", technique="deviation-bounded exhaustive enumeration of feature subsets over a baseline program; per-language acceptors, CPython ast + import under a stub pydantic for Python",
     text="A baseline with one item of every kind plus every subset of ≤ 2 (quick) / ≤ 3 (thorough, ≈20k programs) features from a 50-entry menu (generics, dashed/keyword/digit renames, optional forms, empty items, decorators, redaction, type overrides, docs, keyword tag keys, header/package/prefix settings, consts, recursion, nested modules) × 6 languages. Each output must be accepted by the language's recursive-descent acceptor; Python output is additionally parsed by CPython and executed under a stub pydantic in one batch.",
     note="The acceptors reject only what is certainly invalid for the declaration subset typeshare emits; they are not full grammars (no tsc/kotlinc/swiftc/scalac/go installed). Keyword escaping is judged only where promised (Swift, Python)."),
 "C11": dict(engine="E1", design="§5 C11", technique="exhaustive enumeration of labelled digraphs rendered as programs; permutation and topological-order oracle on the recovered definition order; every ordered selection of directory arguments through the real binary (S-cli)",
     text="Every labelled digraph with self loops on ≤ 3 nodes × 11 edge carriers, × every node-kind assignment (struct, two enum forms, alias, const) × serde-renamed node; every digraph on 4 nodes (acyclic only in quick; all 65 536 × 4 carriers in thorough); seven parametric families up to 12 nodes under every rotation of the labeling; for the five backends sharing the ordering.",
     note="Graphs with 5+ nodes only from the named families."),
 "C12": dict(engine="E1", design="§5 C12", technique="bounded exhaustive product over helper-triggering types, positions and nesting chains; helper uses ⊆ definitions ∪ imports from a token scan of the real output",
     text="16 trigger types × 7 positions × every nesting chain of depth ≤ 2 (quick) / ≤ 3 (thorough) over 6 constructors × field attributes × 6 languages, plus all ordered trigger pairs; every helper name in use (Swift CodableVoid, Scala unsigned aliases, Python typing/pydantic/enum/datetime names, TypeVars and (de)serialiser functions, Go package qualifiers, Kotlin serialization annotations, TS reviver/replacer pair) must be defined or imported in the same output.",
     note="Single-file mode; multi-file Swift Codable.swift is exercised by the CLI-level checks. Vocabulary is per backend and fixed."),
 "C14": dict(engine="E1+S-cli", design="§5 C14", technique="exhaustive product over small multi-crate workspaces executed with the real binary in folder and single-file mode; partition/import oracle on the parsed outputs",
     text="Full product of 9 reference forms (use single/group/nested/glob, qualified paths, crate::/super::/self::) × serde(rename) on the target × type mapping × same-named type in a third crate × 3 reference positions × file depth/dashed crate name × 6 languages (thorough; a stated sub-product in quick). Each workspace is generated with -d and -o: the file set and names follow the crate rule, each definition sits in its crate's file, definitions equal single-file mode, and for TypeScript/Kotlin every cross-file reference is imported from the defining module and no import names an undefined type.",
     note="Workspaces have 2–3 crates with fixed item shapes; larger topologies are not enumerated."),
 "C15": dict(engine="E1", design="§5 C15", technique="bounded exhaustive enumeration of doc strings over a token alphabet; differential token-stream oracle (with docs vs without docs)",
     text="Every word of length ≤ 2 (quick) / ≤ 3 (thorough) over {text, newline, */, /*, //, triple quotes (both), backslash, #, backtick}, with and without separating spaces, in each Rust doc syntax that can express it, at 6 documentable positions, for 6 languages (~240k executions thorough). The code token stream of the output (comments/docstrings removed by a per-language tokenizer) must equal that of the doc-free program, tokenizing must not end inside an open comment/string, and the sentinels around the payload must lie inside comment tokens.",
     note="Trusted: the per-language tokenizers' notion of comment/docstring."),
 "C13": dict(engine="E1", design="§5 C13", technique="bounded exhaustive enumeration of cfg expressions × target lists × attachment levels vs the documented rule evaluated on the generator's AST; on the real binary (S-cli) the flag x configuration-file matrix: the target list comes from --target-os only",
     text="All 10 015 cfg expressions of depth ≤ 3 over any/all/not with leaves target_os=a|b|c, feature, unix × all 16 target lists over {a,b,c,d} × 8 attachment levels × 2 attribute orders, pairs and triples of separate cfg attributes; thorough adds all 7.2M depth-4 expressions over a reduced leaf set × 7 lists. Presence of each guarded element is read from the real parser's result.",
     note="Trusted: the rule as stated in the property / docs; observation through public ParsedData fields. Levels not documented (tuple payloads) are not judged."),
 "C16": dict(engine="E1", design="§5 C16", technique="bounded exhaustive enumeration of identifiers through the real parser vs vendored serde_derive case.rs (reference model)",
     text="Every legal identifier up to length 7 over character-class representatives (and length 5 over second representatives, plus a dictionary) is run through parser::parse under each rename_all rule in field and variant position and compared with serde_derive's own algorithm; exhaustive within the bound, no sampling.",
     note="Trusted: the vendored copy of serde_derive 1.0.214 case.rs; identifiers longer than the bound are covered only by the transducer-size argument."),
 "C17": dict(engine="E2+S-cli", design="§5 C17", technique="explicit-state breadth-first search to closure over the states of the output location; every transition executes the real binary",
     text="Per (language, mode) the reachable states of the output location (file → bytes) under the actions `run the binary on source-tree version v` (5 versions and 5 graphs in quick; 7 versions × 6 languages × single/multi in thorough) are explored to closure from the empty location and from one pre-filled with foreign bytes. Every transition checks: exit status as for a fresh run, fresh content for every file the run is responsible for, unchanged bytes keep their mtime, a failing run changes nothing.",
     note="Closure covers histories of every length over the fixed version alphabet; other source versions are not explored. mtimes are normalised before each step."),
 "C18": dict(engine="E1", design="§5 C18", technique="bounded exhaustive enumeration of integer windows against literal limits",
     text="Every integer within 2^16 (quick) / 2^20 (thorough) of zero, every power of two and every type/range limit, plus all u32/i32 values (thorough), is pushed through every public conversion, comparison and serde_json path of U53/I54 and judged against independently written limits.",
     note="Values outside the windows are not visited; random draws are deliberately not used."),
 "C19": dict(engine="E1+E4", design="§5 C19", technique="exhaustive enumeration of attribute placements compiled by rustc in one generated workspace (annotated / stripped twin), token and serde_json differential",
     text="9 item kinds (named/tuple/unit struct, enum with unit/tuple/struct variants, union, alias, const, generic struct with where-clause, generic enum) × every #[typeshare(...)] argument list × for every member position every helper attribute list × neighbouring attribute before/after (quick: one neighbour at a time, 1375 cases; thorough: both neighbours and helpers on two members at once) × derive before/after #[typeshare]. Each case is compiled twice by rustc with the real typeshare-annotation macro; a harness attribute macro placed below #[typeshare] records the item's token trees, which must equal the stripped twin's, and serde_json output and cross-deserialisation must agree.",
     note="One toolchain; serde 1.0.214. Members compiled out by cfg(any()) and serde-skipped tuple/enum members are compared on tokens only."),
 "C20": dict(engine="E1+S-cli", design="§5 C20", technique="exhaustive configuration matrix executed on the real binary vs the precedence reference model (CLI > file > default)",
     text="The complete 2^5 × 2^5 presence matrix of the five double-homed settings with pairwise distinct values × the four languages they affect (4096 runs); 16 file-only tables each loaded via -c and via discovery; config discovery from every cwd depth 0–3 with files at one or two ancestor levels with/without -c; -g for all 32 CLI subsets (reload equivalence, overwrite protection, default location). Effective values are read back from the generated code with the extractors.",
     note="Values are fixed distinct strings; tables are a fixed list of 16. The scratch directory's ancestors must not contain a typeshare.toml."),
}
NOT_YET = {}
def main():
    props=[json.loads(l) for l in open('/verif/properties.jsonl')]
    checks=[]; na=[]
    for p in props:
        i=p['id']
        if i in CLAIMED:
            c=CLAIMED[i]
            checks.append({
              "property_id": i,
              "quick_cmd": f"./check {i} --tier quick",
              "thorough_cmd": f"./check {i} --tier thorough",
              "evidence_file": f"/verif/evidence/{i}.json",
              "replay_cmd_template": "./check replay {path}",
              "engine": c["engine"],
              "level_claimed": {"category": c.get("category","model_checking"), "text": c["text"], "design_ref": c["design"]},
              "level_note": c["note"],
              "technique": c["technique"],
            })
        else:
            na.append({"property_id": i, "reason": NOT_YET.get(i, "check not built yet in this round (model-checking design exists in DESIGN.md §5); not claimed until its machinery runs")})
    m={
      "version":1,
      "setup_cmd":"./setup.sh",
      "hooks":{"guard":"--cfg typeshare_verif","enable":"RUSTFLAGS='--cfg typeshare_verif' cargo build -p typeshare-cli --features go,python --target-dir /verif/target/cli-verif",
               "baseline_off_cmd":"cd /repo && cargo nextest run --workspace --no-fail-fast --test-threads 8 --offline",
               "source_commits":["9df0e9a","0d72a46","3c9be5a"],"add_only":True},
      "engines":[
        {"name":"E3","path":"/verif/models/WalkCollect.tla + /verif/mc/src/e3.rs","serves_properties":["C06","C07"],"kind_free_text":"TLA+ protocol model checked and dumped by TLC; every maximal path replayed as a forced schedule on the real binary through the cfg(typeshare_verif) hooks"},
        {"name":"E4","path":"/verif/mc/src/props/c19.rs + /verif/mc/verif_dump","serves_properties":["C19"],"kind_free_text":"batch differential compile: all enumerated cases in one generated cargo workspace, built once by rustc and run once"},
        {"name":"E2","path":"/verif/mc/src/props/c17.rs","serves_properties":["C17"],"kind_free_text":"explicit-state BFS with visited set over real file-system states; transitions run the real binary"},
        {"name":"S-cli","path":"/verif/mc/src/cli.rs","serves_properties":["C06","C07","C08","C14","C17","C20"],"kind_free_text":"the real typeshare binary (hooks-on build) as a subprocess on scratch trees with a watchdog"},
        {"name":"E1","path":"/verif/mc/src/explore.rs","serves_properties":sorted(k for k,v in CLAIMED.items() if "E1" in v["engine"]),"kind_free_text":"stateless choice-sequence explorer (product / deviation-bounded), every case executed on the real code and judged by a reference model"},
      ],
      "checks":checks,
      "notes":"All checks: ./check <id> --tier quick|thorough; exit 0 held / 1 violation / 2 machinery failure. Known findings: /verif/known_findings.json.",
      "not_applicable":na,
    }
    json.dump(m,open('/verif/MANIFEST.json','w'),indent=1)
    print("claimed",len(checks),"not claimed",len(na))
main()
