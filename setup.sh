#!/bin/bash
# MANIFEST.setup_cmd: build everything the checks need, offline, from files on disk.
set -e
export CARGO_NET_OFFLINE=true
unset CARGO_TARGET_DIR RUSTFLAGS
cd /verif/mc
cargo build --release --offline
RUSTFLAGS="--cfg typeshare_verif" cargo build --offline --manifest-path /repo/Cargo.toml -p typeshare-cli \
   --features go,python --target-dir /verif/target/cli-verif
# warm caches that only depend on /verif: TLC state graphs of the protocol model, dependencies of the C19 batch crates
/verif/target/mc/release/tsmc warm || true
echo setup ok
