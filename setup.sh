#!/bin/bash
# MANIFEST.setup_cmd: build everything the checks need, offline, from files on disk.
set -e
export CARGO_NET_OFFLINE=true
cd /verif/mc
cargo build --release --offline
if grep -q typeshare_verif /repo/cli/src/main.rs 2>/dev/null; then
  RUSTFLAGS="--cfg typeshare_verif" cargo build --offline --manifest-path /repo/Cargo.toml -p typeshare-cli \
     --features go,python --target-dir /verif/target/cli-verif
fi
echo setup ok
